/-
Property theorems about the workflow status, for every definition, every evaluator and every
history (list of API calls) — C02, C04, C09, C10 clauses.  Each is a corollary of the refinement
of the operations to the status automaton (`Proofs/StatusOps.lean`) and of facts about the
*generated* state-machine functions, closed by kernel evaluation over their whole domain.
-/
import OrqModel.Proofs.StatusOps
import OrqModel.Proofs.StepRes
import OrqModel.Model.Ops

namespace Orq

/-- every request is allowed -/
def anyReq : Status → Bool := fun _ => true
/-- only the conductor's own `failed` request (what `get_next_tasks`, `update_task_state` and
    `render_workflow_output` can issue) -/
def onlyFailed : Status → Bool := fun s => s == .failed

/-- each non-rerun operation refines the status automaton with arbitrary requests -/
theorem runOp_trace (E : Evaluator) (op : Op) (h : op.isRerun = false) (c : Cond) :
    WfTrace anyReq c.st.status (runOp E op c).st.status := by
  cases op with
  | req s => exact (requestStatus_status (A := anyReq) s rfl).run c
  | next => exact (getNextTasks_status (A := anyReq) E rfl).run c
  | report k ev => exact (updateTaskState_status (A := anyReq) E k ev rfl).run c
  | render => exact (renderOutput_status (A := anyReq) E rfl).run c
  | rerun _ => simp [Op.isRerun] at h

/-- a set of statuses closed under the moves is invariant along every rerun-free history -/
theorem runOps_closed (E : Evaluator) {S : Status → Prop}
    (hS : ∀ a b, S a → WfMove anyReq a b → S b)
    (ops : List Op) (hops : ∀ op ∈ ops, op.isRerun = false) (c : Cond) (hc : S c.st.status) :
    S (runOps E ops c).st.status := by
  induction ops generalizing c with
  | nil => simpa using hc
  | cons op ops ih =>
    simp only [runOps_cons]
    apply ih (fun o ho => hops o (List.mem_cons_of_mem _ ho))
    exact WfTrace.closed hS (runOp_trace E op (hops op List.mem_cons_self) c) hc

/-! ### closure facts about the generated tables (kernel-evaluated over the whole domain) -/

def cancelFamily : Status → Bool := fun s => s == .canceling || s == .canceled || s == .failed

theorem tbl_cancel_closed_task_k : ∀ (s ev : Status) (rem act : Bool) (oc : Outcome),
    cancelFamily s = true → (wfOnTaskEvent s ev rem act oc).all? cancelFamily = true := by
  decide +kernel

theorem tbl_cancel_closed_task (s ev : Status) (rem act : Bool) (oc : Outcome) (s' : Status)
    (hs : cancelFamily s = true) (h : wfOnTaskEvent s ev rem act oc = .ok s') : cancelFamily s' = true :=
  StepRes.all?_ok (tbl_cancel_closed_task_k s ev rem act oc hs) h

theorem tbl_cancel_closed_wf_k : ∀ (s req : Status) (a st p : Bool),
    cancelFamily s = true → (wfOnWorkflowEvent s req a st p).all? cancelFamily = true := by
  decide +kernel

theorem tbl_cancel_closed_wf (s req : Status) (a st p : Bool) (s' : Status)
    (hs : cancelFamily s = true) (h : wfOnWorkflowEvent s req a st p = .ok s') : cancelFamily s' = true :=
  StepRes.all?_ok (tbl_cancel_closed_wf_k s req a st p hs) h

theorem cancel_move_closed : ∀ a b, cancelFamily a = true → WfMove anyReq a b → cancelFamily b = true := by
  intro a b ha m
  cases m with
  | taskEvent ev rem act oc h => exact tbl_cancel_closed_task _ _ _ _ _ _ ha h
  | taskEventUnreach ev rem act oc h _ _ => rfl
  | wfEvent req x y z _ h => exact tbl_cancel_closed_wf _ _ _ _ _ _ ha h
  | wfEventUnreach req x y z _ h _ _ => rfl

/-- **C10** (closure): once the workflow is canceling or canceled (or has failed), no history of
    status requests, next-task queries, completion reports and output renderings — whatever the
    definition, the evaluator and the order — takes it anywhere but canceling, canceled or failed.
    In particular it never ends `succeeded` and is never `running` again. -/
theorem C10_cancel_family_closed (E : Evaluator) (ops : List Op)
    (hops : ∀ op ∈ ops, op.isRerun = false) (c : Cond) (hc : cancelFamily c.st.status = true) :
    cancelFamily (runOps E ops c).st.status = true :=
  runOps_closed E (S := fun s => cancelFamily s = true) cancel_move_closed ops hops c hc

theorem C10_never_succeeds (E : Evaluator) (ops : List Op)
    (hops : ∀ op ∈ ops, op.isRerun = false) (c : Cond) (hc : cancelFamily c.st.status = true) :
    (runOps E ops c).st.status ≠ .succeeded := by
  intro h
  have := C10_cancel_family_closed E ops hops c hc
  rw [h] at this
  exact absurd this (by decide)

/-- non-vacuity: the premise is met by a canceling conductor -/
example : cancelFamily Status.canceling = true := by decide

/-! ### C04: terminal statuses are final -/

theorem tbl_failed_absorbing_task : ∀ (ev : Status) (rem act : Bool) (oc : Outcome) (s' : Status),
    wfOnTaskEvent .failed ev rem act oc = .ok s' → s' = .failed := by decide +kernel
theorem tbl_failed_absorbing_wf : ∀ (req : Status) (a st p : Bool) (s' : Status),
    wfOnWorkflowEvent .failed req a st p = .ok s' → s' = .failed := by decide +kernel
theorem tbl_canceled_absorbing_task : ∀ (ev : Status) (rem act : Bool) (oc : Outcome) (s' : Status),
    wfOnTaskEvent .canceled ev rem act oc = .ok s' → s' = .canceled := by decide +kernel
theorem tbl_canceled_absorbing_wf : ∀ (req : Status) (a st p : Bool) (s' : Status),
    wfOnWorkflowEvent .canceled req a st p = .ok s' → s' = .canceled := by decide +kernel
theorem tbl_succeeded_task : ∀ (ev : Status) (rem act : Bool) (oc : Outcome) (s' : Status),
    wfOnTaskEvent .succeeded ev rem act oc = .ok s' → s' = .succeeded := by decide +kernel
theorem tbl_succeeded_wf : ∀ (req : Status) (a st p : Bool) (s' : Status),
    wfOnWorkflowEvent .succeeded req a st p = .ok s' →
      s' = .succeeded ∨ (s' = .failed ∧ req = .failed) := by decide +kernel

/-- **C04**: `failed` is absorbing along every rerun-free history. -/
theorem C04_failed_final (E : Evaluator) (ops : List Op) (hops : ∀ op ∈ ops, op.isRerun = false)
    (c : Cond) (hc : c.st.status = .failed) : (runOps E ops c).st.status = .failed := by
  refine runOps_closed E (S := fun s => s = .failed) ?_ ops hops c hc
  intro a b ha m
  subst ha
  cases m with
  | taskEvent ev rem act oc h => exact tbl_failed_absorbing_task _ _ _ _ _ h
  | taskEventUnreach ev rem act oc h _ _ => rfl
  | wfEvent req x y z _ h => exact tbl_failed_absorbing_wf _ _ _ _ _ h
  | wfEventUnreach req x y z _ h _ _ => rfl

/-- **C04**: `canceled` is absorbing along every rerun-free history (in particular it is not
    turned into `failed` by the unreachable-join check). -/
theorem C04_canceled_final (E : Evaluator) (ops : List Op) (hops : ∀ op ∈ ops, op.isRerun = false)
    (c : Cond) (hc : c.st.status = .canceled) : (runOps E ops c).st.status = .canceled := by
  refine runOps_closed E (S := fun s => s = .canceled) ?_ ops hops c hc
  intro a b ha m
  subst ha
  cases m with
  | taskEvent ev rem act oc h => exact tbl_canceled_absorbing_task _ _ _ _ _ h
  | taskEventUnreach ev rem act oc h hne _ =>
    exact absurd (tbl_canceled_absorbing_task _ _ _ _ _ h) hne
  | wfEvent req x y z _ h => exact tbl_canceled_absorbing_wf _ _ _ _ _ h
  | wfEventUnreach req x y z _ h hne _ => exact absurd (tbl_canceled_absorbing_wf _ _ _ _ _ h) hne

/-- **C04**: from `succeeded` the only exit (without rerun) is to `failed`, and only through a
    request for `failed` (output rendering error, or the provider's own request). -/
theorem C04_succeeded_final (E : Evaluator) (ops : List Op) (hops : ∀ op ∈ ops, op.isRerun = false)
    (c : Cond) (hc : c.st.status = .succeeded) :
    (runOps E ops c).st.status = .succeeded ∨ (runOps E ops c).st.status = .failed := by
  refine runOps_closed E (S := fun s => s = .succeeded ∨ s = .failed) ?_ ops hops c (Or.inl hc)
  intro a b ha m
  rcases ha with ha | ha <;> subst ha
  · cases m with
    | taskEvent ev rem act oc h => exact Or.inl (tbl_succeeded_task _ _ _ _ _ h)
    | taskEventUnreach ev rem act oc h _ _ => exact Or.inr rfl
    | wfEvent req x y z _ h =>
      rcases tbl_succeeded_wf _ _ _ _ _ h with h1 | h1
      · exact Or.inl h1
      · exact Or.inr h1.1
    | wfEventUnreach req x y z _ h _ _ => exact Or.inr rfl
  · right
    cases m with
    | taskEvent ev rem act oc h => exact tbl_failed_absorbing_task _ _ _ _ _ h
    | taskEventUnreach ev rem act oc h _ _ => rfl
    | wfEvent req x y z _ h => exact tbl_failed_absorbing_wf _ _ _ _ _ h
    | wfEventUnreach req x y z _ h _ _ => rfl

/-- single call: a completion report, a next-task query or an output rendering can take
    `succeeded` only to `succeeded` or `failed`, and a report alone leaves `succeeded` unchanged
    unless the conductor itself requests `failed`. -/
theorem C04_report_keeps_terminal (E : Evaluator) (k : TaskKey) (ev : Event) (c : Cond)
    (hc : c.st.status = .failed ∨ c.st.status = .canceled) :
    (updateTaskState E k ev c).2.st.status = c.st.status := by
  rcases hc with hc | hc
  · have := C04_failed_final E [.report k ev] (by simp [Op.isRerun]) c hc
    simpa [runOps, runOp, hc] using this
  · have := C04_canceled_final E [.report k ev] (by simp [Op.isRerun]) c hc
    simpa [runOps, runOp, hc] using this

/-! ### C09 / C02: doors into the resting and running statuses -/

/-- no task event (nor the conductor's own `failed` request) takes a pausing workflow to a
    running status; the only way back is an explicit request -/
theorem tbl_pausing_no_running_task : ∀ (ev : Status) (rem act : Bool) (oc : Outcome) (s' : Status),
    wfOnTaskEvent .pausing ev rem act oc = .ok s' → s'.isRunning = false := by decide +kernel

theorem tbl_pausing_failed_req : ∀ (a st p : Bool) (s' : Status),
    wfOnWorkflowEvent .pausing .failed a st p = .ok s' → s'.isRunning = false := by decide +kernel

/-- **C09**: a completion report processed while `pausing` never resumes the workflow. -/
theorem C09_report_while_pausing (b : Status) (m : WfMove onlyFailed .pausing b) : b.isRunning = false := by
  cases m with
  | taskEvent ev rem act oc h => exact tbl_pausing_no_running_task _ _ _ _ _ h
  | taskEventUnreach ev rem act oc h _ _ => rfl
  | wfEvent req x y z hA h =>
    have : req = .failed := by
      cases req <;> first | rfl | exact absurd hA (by decide)
    subst this
    exact tbl_pausing_failed_req _ _ _ _ h
  | wfEventUnreach req x y z hA h _ _ => rfl

/-- from `paused` the only task reports that set the workflow running again are a task reported
    running or resuming (the provider resuming a paused or pending task) -/
theorem tbl_paused_doors : ∀ (ev : Status) (rem act : Bool) (oc : Outcome) (s' : Status),
    wfOnTaskEvent .paused ev rem act oc = .ok s' → s'.isRunning = true →
      ev = .running ∨ ev = .resuming := by decide +kernel

/-- **C02/C09**: every entry into `paused` or `canceled` by a task event happens with no active
    task (`has_active_tasks` false at that moment) -/
theorem tbl_dormant_doors_task_k : ∀ (s ev : Status) (rem act : Bool) (oc : Outcome),
    (wfOnTaskEvent s ev rem act oc).all?
      (fun s' => !(s' != s && (s' == .paused || s' == .canceled)) || !act) = true := by
  decide +kernel

theorem tbl_dormant_doors_task (s ev : Status) (rem act : Bool) (oc : Outcome) (s' : Status)
    (h : wfOnTaskEvent s ev rem act oc = .ok s') (hne : s' ≠ s) (hs : s' = .paused ∨ s' = .canceled) :
    act = false := by
  have := StepRes.all?_ok (tbl_dormant_doors_task_k s ev rem act oc) h
  revert this hne
  rcases hs with hs | hs <;> subst hs <;> cases s <;> cases act <;> decide

theorem tbl_dormant_doors_wf_k : ∀ (s req : Status) (a st p : Bool),
    (wfOnWorkflowEvent s req a st p).all?
      (fun s' => !(s' != s && (s' == .paused || s' == .canceled)) || !a) = true := by
  decide +kernel

theorem tbl_dormant_doors_wf (s req : Status) (a st p : Bool) (s' : Status)
    (h : wfOnWorkflowEvent s req a st p = .ok s') (hne : s' ≠ s) (hs : s' = .paused ∨ s' = .canceled) :
    a = false := by
  have := StepRes.all?_ok (tbl_dormant_doors_wf_k s req a st p) h
  revert this hne
  rcases hs with hs | hs <;> subst hs <;> cases s <;> cases a <;> decide

/-- every entry into `pausing` or `canceling` by a task event or request happens with an active
    task, except the explicit task-level `canceling` report -/
theorem tbl_active_doors_wf_k : ∀ (s req : Status) (a st p : Bool),
    (wfOnWorkflowEvent s req a st p).all?
      (fun s' => !(s' != s && (s' == .pausing || s' == .canceling)) || a) = true := by
  decide +kernel

theorem tbl_active_doors_wf (s req : Status) (a st p : Bool) (s' : Status)
    (h : wfOnWorkflowEvent s req a st p = .ok s') (hne : s' ≠ s) (hs : s' = .pausing ∨ s' = .canceling) :
    a = true := by
  have := StepRes.all?_ok (tbl_active_doors_wf_k s req a st p) h
  revert this hne
  rcases hs with hs | hs <;> subst hs <;> cases s <;> cases a <;> decide

/-- **C02/C03**: the only doors into `succeeded` are a task success/remediation with no active
    task and the `completed` outcome (nothing staged, no next task), the resume of a paused
    workflow that has nothing left, and the explicit request. -/
theorem tbl_succeeded_doors_task : ∀ (s ev : Status) (rem act : Bool) (oc : Outcome),
    wfOnTaskEvent s ev rem act oc = .ok .succeeded → s ≠ .succeeded →
      act = false ∧ oc = .completed ∧ (s = .running ∨ s = .resuming) := by decide +kernel

/-- **C02**: an unhandled task failure (reported status `failed`, not remediated) fails the
    workflow from every status in which a task can report, unless a cancellation is in progress. -/
theorem tbl_failure_covered : ∀ (s : Status) (act : Bool) (oc : Outcome),
    (s = .running ∨ s = .pausing ∨ s = .paused ∨ s = .resuming) →
      wfOnTaskEvent s .failed false act oc = .ok .failed := by decide +kernel

theorem tbl_failure_canceling : ∀ (act : Bool) (oc : Outcome) (s' : Status),
    wfOnTaskEvent .canceling .failed false act oc = .ok s' → s' = .canceling ∨ s' = .canceled := by
  decide +kernel

/-- **C11/C02**: the conductor's own `failed` request is honoured in every non-terminal status -/
theorem tbl_failed_request_total : ∀ (s : Status) (a st p : Bool),
    (s = .unset ∨ s = .requested ∨ s = .scheduled ∨ s = .delayed ∨ s = .running ∨ s = .pausing ∨
     s = .paused ∨ s = .resuming ∨ s = .canceling ∨ s = .succeeded) →
      wfOnWorkflowEvent s .failed a st p = .ok .failed ∧ wfTransitionValid s .failed = true := by
  decide +kernel

/-- every status a task can reach through the task state machine has a `task_<status>` event, so
    reporting it to the workflow machine cannot raise `InvalidEvent` -/
theorem tbl_task_targets_have_events_k : ∀ (tk ev : Status),
    (tkOnActionEvent tk ev).all? (fun s' => s' == .unset || hasTaskEvent s') = true := by decide +kernel

theorem tbl_task_targets_have_events (tk ev s' : Status)
    (h : tkOnActionEvent tk ev = .ok s') (hne : s' ≠ .unset) : hasTaskEvent s' = true := by
  have := StepRes.all?_ok (tbl_task_targets_have_events_k tk ev) h
  revert this hne
  cases s' <;> decide

theorem tbl_item_targets_have_events_k : ∀ (tk ev : Status) (a p c f i : Bool),
    (tkOnItemEvent tk ev a p c f i).all? (fun s' => s' == .unset || hasTaskEvent s') = true := by
  decide +kernel

theorem tbl_item_targets_have_events (tk ev : Status) (a p c f i : Bool) (s' : Status)
    (h : tkOnItemEvent tk ev a p c f i = .ok s') (hne : s' ≠ .unset) : hasTaskEvent s' = true := by
  have := StepRes.all?_ok (tbl_item_targets_have_events_k tk ev a p c f i) h
  revert this hne
  cases s' <;> decide

/-! ### C02/C03: last one out -/

def leavesActive : Status → Bool
  | .pending | .paused | .succeeded | .failed | .canceled | .retrying => true
  | _ => false

def resting : Status → Bool
  | .succeeded | .failed | .canceled | .paused => true
  | _ => false

/-- **C02/C03** (last one out): when a task leaves the active set and no other task is active, a
    pausing or canceling workflow does not stay pausing or canceling -/
theorem tbl_leave_active_total : ∀ (s ev : Status) (rem : Bool) (oc : Outcome),
    (s == .pausing || s == .canceling) = true → leavesActive ev = true →
      (wfOnTaskEvent s ev rem false oc).all? (fun s' => !(s' == .pausing || s' == .canceling)) = true := by
  decide +kernel

/-- **C03**: a completion with nothing active brings a running or resuming workflow to rest,
    unless something is staged or a next task exists (outcome `incomplete`) -/
theorem tbl_quiescent_resolves : ∀ (s ev : Status) (rem : Bool) (oc : Outcome),
    (s == .running || s == .resuming) = true → (ev == .succeeded || ev == .failed || ev == .canceled) = true →
      (wfOnTaskEvent s ev rem false oc).all? (fun s' => resting s' || oc == .incomplete) = true := by
  decide +kernel

/-! ### C15: the workflow machine accepts what the task machine produces -/

/-- the statuses a workflow can be in (every status the workflow machine or a request can set) -/
def wfReachable : Status → Bool
  | .unset | .requested | .scheduled | .delayed | .running | .pausing | .paused | .resuming
  | .canceling | .canceled | .succeeded | .failed => true
  | _ => false

/-- **C15**: in every status a workflow can be in, the workflow machine accepts every task status
    the task machine can produce (with or without remediation, other active tasks, any outcome
    context): reporting a task never raises `InvalidEvent` or `InvalidWorkflowStatusTransition` -/
theorem C15_task_events_accepted : ∀ (s ev : Status) (rem act : Bool) (oc : Outcome),
    wfReachable s = true → hasTaskEvent ev = true → (wfOnTaskEvent s ev rem act oc).isOk = true := by
  decide +kernel

/-! ### C01/C03/C18: a fresh execution is recognised as one -/

/-- **C01/C03/C18**: every status with which the task machine lets an execution begin (moves a record
    out of `unset`) is a *starting* status, which is what makes `update_task_state` open a new record
    when a completed task is entered again (next loop iteration, rerun) instead of applying the
    event to the finished record -/
theorem C03_fresh_start_statuses : ∀ (ev : Status),
    (tkOnActionEvent .unset ev).all? (fun s' => s' == .unset || ev.isStarting) = true := by
  decide +kernel

/-- the same for item events -/
theorem C03_fresh_start_statuses_item : ∀ (ev : Status) (a p c f i : Bool),
    (tkOnItemEvent .unset ev a p c f i).all? (fun s' => s' == .unset || ev.isStarting) = true := by
  decide +kernel

/-! ### C10: cancellation is not turned into failure by the unreachable-join check -/

/-- **C10** (table): a request for `canceling`/`canceled`, from any status and whatever the state
    queries answer, leaves the status alone or moves it to `canceling`/`canceled`, and a status it
    moves to never triggers the unreachable-join check -/
theorem tbl_cancel_request_never_fails : ∀ (s req : Status) (a st p : Bool) (s' : Status),
    (req = .canceling ∨ req = .canceled) → wfOnWorkflowEvent s req a st p = .ok s' →
      (s' = s ∨ s' = .canceling ∨ s' = .canceled) ∧ (s' ≠ s → wfReqUnreachCheck s' = false) := by
  decide +kernel

/-- **C10** (table): while the workflow is `canceling`/`canceled`, no task report — whatever the
    outcome — moves it anywhere else, and the unreachable-join check does not apply -/
theorem tbl_canceling_reports_never_fail : ∀ (s ev : Status) (rem act : Bool) (oc : Outcome) (s' : Status),
    (s = .canceling ∨ s = .canceled) → wfOnTaskEvent s ev rem act oc = .ok s' →
      (s' = .canceling ∨ s' = .canceled) ∧ wfUnreachCheck s' = false := by
  decide +kernel

theorem Status.bne_self (s : Status) : (s != s) = false := by cases s <;> rfl

/-- states whose status lies in `S` stay there -/
def closedPre (S : Status → Prop) : Pre where
  R c c' := S c.st.status → S c'.st.status
  refl _ := id
  trans h1 h2 := fun h => h2 (h1 h)

theorem Rel.closed_of_keep {S : Status → Prop} {α} {m : M α} (h : Rel keepPre m) : Rel (closedPre S) m := by
  constructor
  intro c hs
  rw [h.run c]
  exact hs

theorem wfProcessWorkflowEvent_cancel (s0 req : Status) (hreq : req = .canceling ∨ req = .canceled) :
    Rel (closedPre fun s => s = s0 ∨ s = .canceling ∨ s = .canceled) (wfProcessWorkflowEvent req) := by
  constructor
  intro c hs
  show _ ∨ _ ∨ _
  unfold wfProcessWorkflowEvent
  cases hw : wfOnWorkflowEvent c.st.status req c.st.hasActive c.st.hasStaged c.st.hasPaused with
  | raise e => exact hs
  | ok s' =>
    obtain ⟨h1, h2⟩ := tbl_cancel_request_never_fails _ _ _ _ _ _ hreq hw
    have hs' : s' = s0 ∨ s' = .canceling ∨ s' = .canceled := by
      rcases h1 with h | h | h
      · rw [h]; exact hs
      · exact Or.inr (Or.inl h)
      · exact Or.inr (Or.inr h)
    dsimp only
    by_cases hne : s' = c.st.status
    · rw [if_neg]
      · exact hs'
      · rw [hne, Status.bne_self]
        simp
    · rw [if_neg]
      · exact hs'
      · rw [h2 hne]
        simp

/-- **C10**: a cancellation request (`canceling` or `canceled`), on any state — whatever is
    staged, in flight, paused, half-way through a join — leaves the workflow status as it was or
    moves it to `canceling`/`canceled`; it never fails the workflow through the unreachable-join
    check (whether the call returns or raises) -/
theorem C10_cancel_request_never_fails (req : Status) (hreq : req = .canceling ∨ req = .canceled) (c : Cond) :
    (requestStatus req c).2.st.status = c.st.status ∨ (requestStatus req c).2.st.status = .canceling ∨
    (requestStatus req c).2.st.status = .canceled := by
  have h : Rel (closedPre fun s => s = c.st.status ∨ s = .canceling ∨ s = .canceled) (requestStatus req) := by
    unfold requestStatus
    repeat' (first
      | exact Rel.pure _ | exact Rel.throw _ | exact Rel.get
      | exact Rel.closed_of_keep (tkProcessWorkflowEvent_keep _ _)
      | exact wfProcessWorkflowEvent_cancel _ _ hreq
      | apply Rel.bind | apply Rel.forEach
      | intro _ | split | dsimp only)
  exact h.run c (Or.inl rfl)

theorem wfProcessTaskEvent_canceling (k : TaskKey) (ev : Status) :
    Rel (closedPre fun s => s = .canceling ∨ s = .canceled) (wfProcessTaskEvent k ev) := by
  constructor
  intro c hs
  show _ ∨ _
  unfold wfProcessTaskEvent
  dsimp only
  generalize taskEventSummary ev _ _ _ _ _ _ _ _ = sm
  obtain ⟨rem, act, oc⟩ := sm
  dsimp only
  cases hw : wfOnTaskEvent c.st.status ev rem act oc with
  | raise e => exact hs
  | ok s' =>
    obtain ⟨h1, h2⟩ := tbl_canceling_reports_never_fail _ _ _ _ _ _ hs hw
    dsimp only
    rw [if_neg]
    · exact h1
    · rw [h2]
      simp

/-- **C10**: while the workflow is `canceling` or `canceled`, the workflow machine's answer to any
    task report keeps it there -/
theorem C10_reports_keep_canceling (k : TaskKey) (ev : Status) (c : Cond)
    (h : c.st.status = .canceling ∨ c.st.status = .canceled) :
    (wfProcessTaskEvent k ev c).2.st.status = .canceling ∨ (wfProcessTaskEvent k ev c).2.st.status = .canceled :=
  (wfProcessTaskEvent_canceling k ev).run c h

/-! ### C02: the doors, on the state the implementation's queries see -/

/-- what `wfProcessTaskEvent` leaves as the status is the table's answer for the summary of the
    state queries, or `failed` when the unreachable-join check applied -/
theorem wfProcessTaskEvent_status_cases (k : TaskKey) (ev : Status) (c : Cond) :
    (wfProcessTaskEvent k ev c).2.st.status = c.st.status ∨
    (∃ rem oc s', wfOnTaskEvent c.st.status ev rem c.st.hasActive oc = .ok s' ∧
        oc = (taskEventSummary ev (hasNext c k false) (hasNext c k true) c.st.hasActive c.st.hasCanceling c.st.hasCanceled
          c.st.hasPausing c.st.hasPaused c.st.hasStaged).2.2 ∧
        ((wfProcessTaskEvent k ev c).2.st.status = s' ∨
         ((wfProcessTaskEvent k ev c).2.st.status = .failed ∧ s' ≠ c.st.status ∧ wfUnreachCheck s' = true))) := by
  unfold wfProcessTaskEvent
  dsimp only
  cases hw : wfOnTaskEvent c.st.status ev
      (taskEventSummary ev (hasNext c k false) (hasNext c k true) c.st.hasActive c.st.hasCanceling c.st.hasCanceled
        c.st.hasPausing c.st.hasPaused c.st.hasStaged).1
      (taskEventSummary ev (hasNext c k false) (hasNext c k true) c.st.hasActive c.st.hasCanceling c.st.hasCanceled
        c.st.hasPausing c.st.hasPaused c.st.hasStaged).2.1
      (taskEventSummary ev (hasNext c k false) (hasNext c k true) c.st.hasActive c.st.hasCanceling c.st.hasCanceled
        c.st.hasPausing c.st.hasPaused c.st.hasStaged).2.2 with
  | raise e => exact Or.inl rfl
  | ok s' =>
    right
    refine ⟨_, _, s', hw, rfl, ?_⟩
    dsimp only
    by_cases hchk : (s' != c.st.status && wfUnreachCheck s') = true
    · rw [if_pos hchk]
      simp only [Bool.and_eq_true] at hchk
      split
      · exact Or.inl rfl
      · right
        refine ⟨?_, ?_, hchk.2⟩
        · exact (Rel.forEach (P := keepPre) _ (fun x => logError_keep _ _ _ _)).run _
        · intro he
          rw [he, Status.bne_self] at hchk
          exact absurd hchk.1 (by decide)
    · rw [if_neg hchk]
      exact Or.inl rfl

/-- **C02**: when a task report takes the workflow to `succeeded`, then at that moment no task is
    active, nothing is staged ready, no task is pausing, paused, pending, canceling or canceled,
    and the reporting task has no next task — for every state and every report -/
theorem C02_success_door (k : TaskKey) (ev : Status) (c : Cond)
    (h : (wfProcessTaskEvent k ev c).2.st.status = .succeeded) (hne : c.st.status ≠ .succeeded) :
    c.st.hasActive = false ∧ c.st.hasStaged = false ∧ c.st.hasCanceling = false ∧ c.st.hasCanceled = false ∧
    c.st.hasPausing = false ∧ c.st.hasPaused = false ∧ hasNext c k true = false := by
  rcases wfProcessTaskEvent_status_cases k ev c with h0 | ⟨rem, oc, s', hw, hoc, hres⟩
  · rw [h] at h0; exact absurd h0.symm hne
  · have hs' : s' = .succeeded := by
      rcases hres with h1 | ⟨h1, _, _⟩
      · rw [h] at h1; exact h1.symm
      · rw [h] at h1; cases h1
    subst hs'
    obtain ⟨hact, hcomp, _⟩ := tbl_succeeded_doors_task _ _ _ _ _ hw hne
    rw [hcomp] at hoc
    unfold taskEventSummary at hoc
    dsimp only at hoc
    refine ⟨hact, ?_⟩
    revert hoc
    cases c.st.hasCanceling <;> cases c.st.hasCanceled <;> cases c.st.hasPausing <;> cases c.st.hasPaused <;>
      cases c.st.hasStaged <;> cases hasNext c k true <;> simp

/-- **C02/C09/C10**: when a task report brings the workflow to rest `paused` or `canceled`, no task
    is active at that moment -/
theorem C02_dormant_door (k : TaskKey) (ev : Status) (c : Cond)
    (h : (wfProcessTaskEvent k ev c).2.st.status = .paused ∨ (wfProcessTaskEvent k ev c).2.st.status = .canceled)
    (hne : (wfProcessTaskEvent k ev c).2.st.status ≠ c.st.status) : c.st.hasActive = false := by
  rcases wfProcessTaskEvent_status_cases k ev c with h0 | ⟨rem, oc, s', hw, _, hres⟩
  · exact absurd h0 hne
  · rcases hres with h1 | ⟨h1, _, _⟩
    · rw [h1] at h hne
      exact tbl_dormant_doors_task _ _ _ _ _ _ hw hne h
    · rw [h1] at h
      rcases h with h | h <;> cases h

/-- **C03**: when a task reports a completion (succeeded, failed, canceled) to a running or
    resuming workflow in which no task is active, nothing is staged ready and the reporting task
    has no next task, the workflow machine does not leave the workflow running: it comes to rest
    (succeeded, failed, canceled or paused) — for every state, on the implementation's own queries -/
theorem C03_quiescent_report_rests (k : TaskKey) (ev : Status) (c : Cond)
    (hs : c.st.status = .running ∨ c.st.status = .resuming)
    (hev : ev = .succeeded ∨ ev = .failed ∨ ev = .canceled)
    (hact : c.st.hasActive = false) (hst : c.st.hasStaged = false) (hnx : hasNext c k true = false) :
    resting (wfProcessTaskEvent k ev c).2.st.status = true := by
  unfold wfProcessTaskEvent
  dsimp only
  have hsum : (taskEventSummary ev (hasNext c k false) (hasNext c k true) c.st.hasActive c.st.hasCanceling c.st.hasCanceled
      c.st.hasPausing c.st.hasPaused c.st.hasStaged).2.1 = false := by
    unfold taskEventSummary; exact hact
  have hoc : ((taskEventSummary ev (hasNext c k false) (hasNext c k true) c.st.hasActive c.st.hasCanceling c.st.hasCanceled
      c.st.hasPausing c.st.hasPaused c.st.hasStaged).2.2 == Outcome.incomplete) = false := by
    unfold taskEventSummary
    dsimp only
    rw [hst, hnx]
    cases c.st.hasCanceling <;> cases c.st.hasCanceled <;> cases c.st.hasPausing <;> cases c.st.hasPaused <;> rfl
  have htbl := tbl_quiescent_resolves c.st.status ev
    (taskEventSummary ev (hasNext c k false) (hasNext c k true) c.st.hasActive c.st.hasCanceling c.st.hasCanceled
      c.st.hasPausing c.st.hasPaused c.st.hasStaged).1
    (taskEventSummary ev (hasNext c k false) (hasNext c k true) c.st.hasActive c.st.hasCanceling c.st.hasCanceled
      c.st.hasPausing c.st.hasPaused c.st.hasStaged).2.2
    (by rcases hs with h | h <;> rw [h] <;> rfl) (by rcases hev with h | h | h <;> rw [h] <;> rfl)
  have hacc := C15_task_events_accepted c.st.status ev
    (taskEventSummary ev (hasNext c k false) (hasNext c k true) c.st.hasActive c.st.hasCanceling c.st.hasCanceled
      c.st.hasPausing c.st.hasPaused c.st.hasStaged).1 false
    (taskEventSummary ev (hasNext c k false) (hasNext c k true) c.st.hasActive c.st.hasCanceling c.st.hasCanceled
      c.st.hasPausing c.st.hasPaused c.st.hasStaged).2.2
    (by rcases hs with h | h <;> rw [h] <;> rfl) (by rcases hev with h | h | h <;> rw [h] <;> rfl)
  rw [hsum]
  cases hw : wfOnTaskEvent c.st.status ev
      (taskEventSummary ev (hasNext c k false) (hasNext c k true) c.st.hasActive c.st.hasCanceling c.st.hasCanceled
        c.st.hasPausing c.st.hasPaused c.st.hasStaged).1 false
      (taskEventSummary ev (hasNext c k false) (hasNext c k true) c.st.hasActive c.st.hasCanceling c.st.hasCanceled
        c.st.hasPausing c.st.hasPaused c.st.hasStaged).2.2 with
  | raise e =>
    rw [hw] at hacc
    cases hacc
  | ok s' =>
    have hrest : resting s' = true := by
      have := StepRes.all?_ok htbl hw
      rw [hoc] at this
      simpa using this
    dsimp only
    split
    · split
      · exact hrest
      · have : (M.forEach (unreachableBarriers { c with st := { c.st with status := s' } })
            (fun x => logError "UnreachableJoinError" (some x.id) (some x.route))
            { c with st := { c.st with status := Status.failed } }).2.st.status = Status.failed :=
          (Rel.forEach (P := keepPre) _ (fun x => logError_keep _ _ _ _)).run _
        rw [this]
        rfl
    · exact hrest

/-- **C09/C03** (table, true since fix D28): a resume request — `running` or `resuming` — takes a
    task that is `pausing` (a with-items task whose items were in flight when the pause was
    requested) back to `running`, whatever its items are doing; the task is not left pausing
    behind a workflow that has resumed -/
theorem tbl_resume_unpauses_pausing_task : ∀ (req : Status) (hasItems active incomplete : Bool),
    (req = .running ∨ req = .resuming) →
    -- the combinations of the three item flags that a state can produce
    (hasItems = false → active = false ∧ incomplete = false) → (active = true → incomplete = true) →
      tkOnWorkflowEvent .pausing req hasItems active incomplete = .ok .running := by
  decide +kernel

end Orq
