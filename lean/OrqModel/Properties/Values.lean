/-
C16 / C06: values without expressions pass through evaluation unchanged; what a later context
snapshot says about a variable wins over an earlier one; the context function hides internals.
-/
import OrqModel.Model.Values
import OrqModel.Model.Eval

namespace Orq

mutual
  theorem evalVal_plain (hasExpr : String → Bool) (ev : String → Val) (evKey : String → String) :
      ∀ v : Val, plain hasExpr v = true → evalVal hasExpr ev evKey v = v
    | .null, _ => by simp [evalVal]
    | .bool _, _ => by simp [evalVal]
    | .int _, _ => by simp [evalVal]
    | .str s, h => by
      have : hasExpr s = false := by simpa [plain] using h
      simp [evalVal, this]
    | .list xs, h => by
      have := evalList_plain hasExpr ev evKey xs (by simpa [plain] using h)
      simp [evalVal, this]
    | .dict kvs, h => by
      have := evalDict_plain hasExpr ev evKey kvs (by simpa [plain] using h)
      simp [evalVal, this]
  theorem evalList_plain (hasExpr : String → Bool) (ev : String → Val) (evKey : String → String) :
      ∀ xs : List Val, plainList hasExpr xs = true → evalList hasExpr ev evKey xs = xs
    | [], _ => by simp [evalList]
    | x :: xs, h => by
      have h' : plain hasExpr x = true ∧ plainList hasExpr xs = true := by simpa [plainList] using h
      simp [evalList, evalVal_plain hasExpr ev evKey x h'.1, evalList_plain hasExpr ev evKey xs h'.2]
  theorem evalDict_plain (hasExpr : String → Bool) (ev : String → Val) (evKey : String → String) :
      ∀ kvs : List (String × Val), plainDict hasExpr kvs = true → evalDict hasExpr ev evKey kvs = kvs
    | [], _ => by simp [evalDict]
    | (k, x) :: xs, h => by
      have h' : (hasExpr k = false ∧ plain hasExpr x = true) ∧ plainDict hasExpr xs = true := by
        simpa [plainDict] using h
      simp [evalDict, h'.1.1, evalVal_plain hasExpr ev evKey x h'.1.2, evalDict_plain hasExpr ev evKey xs h'.2]
end

/-- **C16**: a JSON value none of whose strings (keys included) contains an expression is returned
    by `evaluate` exactly as it is — whatever the expression languages would do -/
theorem C16_evaluate_plain_identity (hasExpr : String → Bool) (ev : String → Val) (evKey : String → String)
    (v : Val) (h : plain hasExpr v = true) : evalVal hasExpr ev evKey v = v :=
  evalVal_plain hasExpr ev evKey v h

/-- non-vacuity: a nested value with number-, boolean- and null-looking strings is plain when the
    delimiters are absent -/
example : plain (fun s => s == "<% x %>") (.dict [("a", .list [.str "1", .str "true", .str "null", .int 5])]) = true := by
  simp [plain, plainDict, plainList]

/-! ### dictionaries -/

theorem dlookup_dset_same (d : Val.Dict) (k : String) (v : Val) : Val.dlookup (Val.dset d k v) k = some v := by
  induction d with
  | nil => simp [Val.dset, Val.dlookup]
  | cons x xs ih =>
    unfold Val.dset
    split
    · next h => simp [Val.dlookup, h]
    · next h => simp [Val.dlookup, h, ih]

theorem dlookup_dset_other (d : Val.Dict) (k k' : String) (v : Val) (hk : k ≠ k') :
    Val.dlookup (Val.dset d k v) k' = Val.dlookup d k' := by
  induction d with
  | nil => simp [Val.dset, Val.dlookup, hk]
  | cons x xs ih =>
    unfold Val.dset
    split
    · next h =>
      have hx : x.1 = k := by simpa using h
      have : (x.1 == k') = false := by rw [hx]; simpa using hk
      simp [Val.dlookup, this]
    · simp only [Val.dlookup]
      split
      · rfl
      · exact ih

/-- **C16**: writing a value into a context and reading it back yields exactly that value, and
    leaves every other variable alone -/
theorem C16_merge_preserves_values (d : Val.Dict) (k : String) (v : Val) :
    Val.dlookup (Val.dset d k v) k = some v ∧ ∀ k', k ≠ k' → Val.dlookup (Val.dset d k v) k' = Val.dlookup d k' :=
  ⟨dlookup_dset_same d k v, fun k' h => dlookup_dset_other d k k' v h⟩

/-- **C06**: merging a one-variable delta over a context makes that variable read as the delta's
    value when it is not a dict (later wins), whatever the earlier value was -/
theorem C06_merge_later_wins (a : Val.Dict) (k : String) (v : Val) (hv : ∀ d, v ≠ .dict d) :
    Val.dlookup (Val.mergeDicts a [(k, v)]) k = some v := by
  unfold Val.mergeDicts Val.merge
  simp only [List.foldl_cons, List.foldl_nil]
  cases v with
  | dict d => exact absurd rfl (hv d)
  | null => cases Val.dlookup a k <;> first | exact dlookup_dset_same a k _ | (rename_i x; cases x <;> exact dlookup_dset_same a k _)
  | bool b => cases Val.dlookup a k <;> first | exact dlookup_dset_same a k _ | (rename_i x; cases x <;> exact dlookup_dset_same a k _)
  | int i => cases Val.dlookup a k <;> first | exact dlookup_dset_same a k _ | (rename_i x; cases x <;> exact dlookup_dset_same a k _)
  | str s => cases Val.dlookup a k <;> first | exact dlookup_dset_same a k _ | (rename_i x; cases x <;> exact dlookup_dset_same a k _)
  | list xs => cases Val.dlookup a k <;> first | exact dlookup_dset_same a k _ | (rename_i x; cases x <;> exact dlookup_dset_same a k _)

/-- **C16**: the context function never returns a name beginning with a double underscore -/
theorem C16_ctx_hides_internals (x : String) (ec : EvalCtx) (h : x.startsWith "__" = true) :
    fragEval (.ctx x) ec = none := by
  simp [fragEval, h]

end Orq
