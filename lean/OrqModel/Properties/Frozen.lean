/-
C18 / C13 along every history: a record whose outbound transitions have been decided is completed,
keeps its status for ever, and is never retried.
-/
import OrqModel.Proofs.FrozenUpdate
import OrqModel.Proofs.NextKeep
import OrqModel.Properties.Retry

namespace Orq

variable (E : Evaluator)

theorem init_dec (spec : WfSpec) (parentCtx inputs : Val.Dict) : Dec (init E spec parentCtx inputs) := by
  unfold init
  dsimp only
  have h0 : Dec ({ spec := spec, graph := compose spec, inputs := inputs, parentCtx := parentCtx } : Cond) := by
    intro i r hr
    simp at hr
  have hm : Rel decStep (do logError "ExpressionEvaluationException"; failOnError : M Unit) := by
    dec_walk [failOnError_dec]
  have h1 := Dec.step (hm.run _) h0
  split
  · split
    · exact h1
    · exact h0
  · split
    · intro i r hr
      exact h1 i r hr
    · intro i r hr
      exact h0 i r hr

theorem runOp_decw (op : Op) (c : Cond) (hop : op.notRetryEvent) (hd : Dec c) : DecStepW c (runOp E op c) := by
  cases op with
  | req s => exact ((requestStatus_dec s).run c).weak
  | next => exact ((getNextTasks_dec E).run c).weak
  | render => exact ((renderOutput_dec E).run c).weak
  | rerun reqs => exact ((requestRerun_dec E reqs).run c).weak
  | report k ev =>
    apply updateTaskStateAux_decw E 3 k ev c hd
    intro hev
    subst hev
    exact hop.elim

theorem runOps_decw (ops : List Op) (c : Cond) (hops : ∀ op ∈ ops, op.notRetryEvent) (hd : Dec c) :
    DecStepW c (runOps E ops c) ∧ Dec (runOps E ops c) := by
  induction ops generalizing c with
  | nil => exact ⟨DecStepW.refl c, hd⟩
  | cons op ops ih =>
    rw [runOps_cons]
    have h1 := runOp_decw E op c (hops op List.mem_cons_self) hd
    have hd1 := Dec.stepW h1 hd
    obtain ⟨h2, hd2⟩ := ih (runOp E op c) (fun o ho => hops o (List.mem_cons_of_mem _ ho)) hd1
    exact ⟨h1.trans h2, hd2⟩

/-- **C18/C13**: along every history (any definition, inputs, evaluator; status requests, queries,
    action and item reports in any order with any outcomes, late and duplicate reports, output
    rendering, reruns), a task record for which a transition decision has been recorded is in a
    completed status -/
theorem C18_decided_records_completed (spec : WfSpec) (parentCtx inputs : Val.Dict) (ops : List Op)
    (hops : ∀ op ∈ ops, op.notRetryEvent) (i : Nat) (r : Rec)
    (hr : (runOps E ops (init E spec parentCtx inputs)).st.sequence[i]? = some r) (hn : r.next ≠ []) :
    ∃ s, r.status = some s ∧ s.isCompleted = true :=
  (runOps_decw E ops _ hops (init_dec E spec parentCtx inputs)).2 i r hr hn

/-- **C18**: once a decision has been recorded for a task record, whatever happens afterwards
    (`ops2`, any further history) the record is still there, still decided, and its status is what
    it was: a finished, decided execution is never reopened -/
theorem C18_decided_records_frozen (spec : WfSpec) (parentCtx inputs : Val.Dict) (ops1 ops2 : List Op)
    (h1 : ∀ op ∈ ops1, op.notRetryEvent) (h2 : ∀ op ∈ ops2, op.notRetryEvent) (i : Nat) (r : Rec)
    (hr : (runOps E ops1 (init E spec parentCtx inputs)).st.sequence[i]? = some r) (hn : r.next ≠ []) :
    ∃ r', (runOps E ops2 (runOps E ops1 (init E spec parentCtx inputs))).st.sequence[i]? = some r' ∧
      r'.status = r.status ∧ r'.next ≠ [] := by
  obtain ⟨_, hd1⟩ := runOps_decw E ops1 _ h1 (init_dec E spec parentCtx inputs)
  obtain ⟨hw, _⟩ := runOps_decw E ops2 _ h2 hd1
  exact hw.frozen hd1 i r hr hn

/-- **C13**: an attempt that is being retried has no decided transition: no outbound transition,
    publish or failure handling fired for it -/
theorem C13_retried_attempt_undecided (spec : WfSpec) (parentCtx inputs : Val.Dict) (ops : List Op)
    (hops : ∀ op ∈ ops, op.notRetryEvent) (i : Nat) (r : Rec)
    (hr : (runOps E ops (init E spec parentCtx inputs)).st.sequence[i]? = some r)
    (hs : r.status = some .retrying) : r.next = [] := by
  by_cases hn : r.next = []
  · exact hn
  · obtain ⟨s, hs', hc⟩ := C18_decided_records_completed E spec parentCtx inputs ops hops i r hr hn
    rw [hs] at hs'
    cases hs'
    cases hc

theorem runOp_nk (op : Op) (c : Cond) (hop : op.notRetryEvent) (hd : Dec c) : NK c (runOp E op c) := by
  cases op with
  | req s => exact ((requestStatus_nxa s).run c).nk
  | next => exact ((getNextTasks_nxa E).run c).nk
  | render => exact ((renderOutput_nxa E).run c).nk
  | rerun reqs => exact ((requestRerun_nxa E reqs).run c).nk
  | report k ev =>
    apply updateTaskStateAux_nk E 3 k ev c hd
    intro hev
    subst hev
    exact hop.elim

theorem runOps_nk (ops : List Op) (c : Cond) (hops : ∀ op ∈ ops, op.notRetryEvent) (hd : Dec c) :
    NK c (runOps E ops c) := by
  induction ops generalizing c with
  | nil => exact NK.refl c
  | cons op ops ih =>
    rw [runOps_cons]
    have hop := hops op List.mem_cons_self
    exact (runOp_nk E op c hop hd).trans
      (ih (runOp E op c) (fun o ho => hops o (List.mem_cons_of_mem _ ho)) (Dec.stepW (runOp_decw E op c hop hd) hd))

/-- **C18**: the decisions recorded for a task record never change: once an API call has returned
    (or raised) with decisions recorded for a record, whatever history follows — reports, late and
    duplicate reports, control requests, queries, output rendering, reruns — the record's list of
    decisions is exactly what it was, and so is its status -/
theorem C18_decisions_never_change (spec : WfSpec) (parentCtx inputs : Val.Dict) (ops1 ops2 : List Op)
    (h1 : ∀ op ∈ ops1, op.notRetryEvent) (h2 : ∀ op ∈ ops2, op.notRetryEvent) (i : Nat) (r : Rec)
    (hr : (runOps E ops1 (init E spec parentCtx inputs)).st.sequence[i]? = some r) (hn : r.next ≠ []) :
    ∃ r', (runOps E ops2 (runOps E ops1 (init E spec parentCtx inputs))).st.sequence[i]? = some r' ∧
      r'.next = r.next ∧ r'.status = r.status := by
  obtain ⟨_, hd1⟩ := runOps_decw E ops1 _ h1 (init_dec E spec parentCtx inputs)
  obtain ⟨r', hr', hnext⟩ := (runOps_nk E ops2 _ h2 hd1).keep i r hr hn
  obtain ⟨r'', hr'', hstat, _⟩ := C18_decided_records_frozen E spec parentCtx inputs ops1 ops2 h1 h2 i r hr hn
  rw [hr'] at hr''
  cases hr''
  exact ⟨r', hr', hnext, hstat⟩

end Orq
