/-
C11: recorded errors stay recorded.
-/
import OrqModel.Proofs.ErrLog
import OrqModel.Model.Ops

namespace Orq

variable (E : Evaluator)

theorem runOp_err (op : Op) (h : op.isRerun = false) (c : Cond) : c.errors <+: (runOp E op c).errors := by
  cases op with
  | req s => exact (requestStatus_err s).run c
  | next => exact (getNextTasks_err E).run c
  | report k ev => exact (updateTaskStateAux_err E 3 k ev).run c
  | render => exact (renderOutput_err E).run c
  | rerun _ => simp [Op.isRerun] at h

/-- **C11**: along every rerun-free history (any definition, evaluator, order and outcome of
    reports, pause/cancel requests, failing expressions anywhere) the conductor's error log only
    grows: every entry recorded so far stays in place, in order; calls only append.  (A rerun
    deliberately clears the entries of the tasks it re-executes.) -/
theorem C11_errors_persist (ops : List Op) (hops : ∀ op ∈ ops, op.isRerun = false) (c : Cond) :
    c.errors <+: (runOps E ops c).errors := by
  induction ops generalizing c with
  | nil => exact List.prefix_refl _
  | cons op ops ih =>
    rw [runOps_cons]
    exact List.IsPrefix.trans (runOp_err E op (hops op List.mem_cons_self) c)
      (ih (fun o ho => hops o (List.mem_cons_of_mem _ ho)) _)

end Orq
