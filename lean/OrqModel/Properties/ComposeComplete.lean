/-
C14 (completeness of the composer model): when the worklist empties, every task reachable from a
start task is a node of the graph and all its transitions are edges.  Partial correctness: that
the worklist empties within the fuel is a hypothesis (termination of the Python loop is not
proved either).
-/
import OrqModel.Properties.Compose

namespace Orq

/-- all transitions of task `n` (other than the `retry` command) are edges of `g` -/
def Expanded (w : WfSpec) (g : Graph) (n : String) : Prop :=
  ∀ nt ∈ w.nextTasks n, nt.1 ≠ "retry" →
    ∃ e ∈ g.edges, e.src = n ∧ e.dst = nt.1 ∧ e.ref = nt.2.2 ∧ criteriaEq e.criteria nt.2.1 = true

def Queued (q : List (String × List String)) (n : String) : Prop := ∃ x ∈ q, x.1 = n
def IsNode (g : Graph) (n : String) : Prop := g.hasTask n = true

theorem Expanded.mono {w : WfSpec} {g g' : Graph} {n : String} (h : Expanded w g n)
    (hsub : ∀ e ∈ g.edges, e ∈ g'.edges) : Expanded w g' n := by
  intro nt hnt hr
  obtain ⟨e, he, h1⟩ := h nt hnt hr
  exact ⟨e, hsub e he, h1⟩

theorem Queued.mono {q q' : List (String × List String)} {n : String} (h : Queued q n)
    (hsub : ∀ x ∈ q, x ∈ q') : Queued q' n := by
  obtain ⟨x, hx, h1⟩ := h
  exact ⟨x, hsub x hx, h1⟩

theorem hasTask_addTask (g : Graph) (n m : String) : (g.addTask n).hasTask m = (g.hasTask m || m == n) := by
  unfold Graph.addTask
  by_cases h : g.hasTask n = true
  · rw [if_pos h]
    by_cases hm : m = n
    · subst hm; simp [h]
    · have : (m == n) = false := by simpa using hm
      simp [this]
  · rw [if_neg h]
    unfold Graph.hasTask
    simp only [List.any_append, List.any_cons, List.any_nil, Bool.or_false]
    congr 1
    by_cases hm : m = n
    · subst hm; simp
    · have h1 : (m == n) = false := by simpa using hm
      have h2 : (n == m) = false := by simpa using (fun h : n = m => hm h.symm)
      rw [h1, h2]

theorem hasTask_updateNode (g : Graph) (n m : String) (f : Node → Node) (hf : ∀ x, (f x).id = x.id) :
    (g.updateNode n f).hasTask m = g.hasTask m := by
  unfold Graph.updateNode Graph.hasTask
  induction g.nodes with
  | nil => rfl
  | cons x xs ih =>
    simp only [List.map_cons, List.any_cons, ih]
    congr 1
    split
    · rw [hf]
    · rfl

theorem isNode_addEdge (g : Graph) (t n : String) (cond : Option Expr) (idx : Nat) (m : String) :
    IsNode (addEdge g t n cond idx) m → IsNode g m ∨ m = t ∨ m = n := by
  unfold addEdge IsNode
  split
  · intro h; exact Or.inl h
  · intro h
    have h' : ((g.addTask t).addTask n).hasTask m = true := h
    rw [hasTask_addTask, hasTask_addTask] at h'
    simp only [Bool.or_eq_true, beq_iff_eq] at h'
    rcases h' with (h' | h') | h'
    · exact Or.inl h'
    · exact Or.inr (Or.inl h')
    · exact Or.inr (Or.inr h')

theorem isNode_addEdge_mono (g : Graph) (t n : String) (cond : Option Expr) (idx : Nat) (m : String)
    (h : IsNode g m) : IsNode (addEdge g t n cond idx) m := by
  unfold addEdge IsNode
  split
  · exact h
  · show ((g.addTask t).addTask n).hasTask m = true
    rw [hasTask_addTask, hasTask_addTask]
    simp [show g.hasTask m = true from h]

/-- after `addEdge` the edge is there, and so are its two ends when they were nodes of an edge -/
theorem addEdge_has (g : Graph) (t n : String) (cond : Option Expr) (idx : Nat) :
    ∃ e ∈ (addEdge g t n cond idx).edges, e.src = t ∧ e.dst = n ∧ e.ref = idx ∧ criteriaEq e.criteria cond = true := by
  unfold addEdge
  split
  · next h =>
    obtain ⟨e, he, h1⟩ := List.any_eq_true.mp h
    simp only [Bool.and_eq_true, beq_iff_eq] at h1
    exact ⟨e, he, h1.1.1.1, h1.1.1.2, h1.2, h1.1.2⟩
  · refine ⟨_, List.mem_append_right _ (List.mem_singleton.mpr rfl), rfl, rfl, rfl, ?_⟩
    cases cond <;> rfl

theorem addEdge_dst_node (g : Graph) (t n : String) (cond : Option Expr) (idx : Nat)
    (hd : ∀ e ∈ g.edges, IsNode g e.dst) : ∀ e ∈ (addEdge g t n cond idx).edges, IsNode (addEdge g t n cond idx) e.dst := by
  intro e he
  rcases addEdge_edges g t n cond idx e he with he' | ⟨_, h2, _, _⟩
  · exact isNode_addEdge_mono _ _ _ _ _ _ (hd e he')
  · -- the new edge: its destination was just added
    unfold addEdge IsNode at *
    split
    · next hex =>
      -- then the edge already existed
      split at he
      · exact hd e he
      · rename_i hne; exact absurd hex hne
    · show ((g.addTask t).addTask n).hasTask e.dst = true
      rw [hasTask_addTask]
      simp [h2]

/-! ### the worklist invariant -/

structure CInv (w : WfSpec) (st : CompState) (pend : String → Prop) : Prop where
  nodes : ∀ n, IsNode st.g n → pend n ∨ Expanded w st.g n ∨ Queued st.queue n
  track : ∀ p ∈ st.track, pend p.1 ∨ IsNode st.g p.1 ∨ Queued st.queue p.1
  dsts : ∀ e ∈ st.g.edges, IsNode st.g e.dst
  roots : ∀ r ∈ w.startTasks, pend r ∨ IsNode st.g r ∨ Queued st.queue r

theorem enqueueNext_queue_mono (w : WfSpec) (splits : List String) (st : CompState) (n : String) :
    ∀ x ∈ st.queue, x ∈ (enqueueNext w splits st n).queue := by
  intro x hx
  unfold enqueueNext
  repeat' (first | exact hx | (simp only [List.mem_append]; exact Or.inl hx) | split)

theorem enqueueNext_none (w : WfSpec) (splits : List String) (st : CompState) (n : String)
    (h1 : (!st.g.hasTask n || !w.inCycle n) = true) (h2 : st.track.find? (·.1 == n) = none) :
    enqueueNext w splits st n =
      { st with queue := st.queue ++ [(n, splits)], track := st.track ++ [(n, unionInto [] splits)] } := by
  unfold enqueueNext
  rw [if_pos h1, h2]

theorem enqueueNext_track (w : WfSpec) (splits : List String) (st : CompState) (n : String) :
    ∀ p ∈ (enqueueNext w splits st n).track, (∃ p' ∈ st.track, p'.1 = p.1) ∨
      (p.1 = n ∧ Queued (enqueueNext w splits st n).queue n) := by
  intro p hp
  by_cases h1 : (!st.g.hasTask n || !w.inCycle n) = true
  · cases h2 : st.track.find? (·.1 == n) with
    | none =>
      rw [enqueueNext_none w splits st n h1 h2] at hp ⊢
      rcases List.mem_append.mp hp with hp | hp
      · exact Or.inl ⟨p, hp, rfl⟩
      · simp only [List.mem_singleton] at hp
        subst hp
        exact Or.inr ⟨rfl, (n, splits), List.mem_append_right _ (List.mem_singleton.mpr rfl), rfl⟩
    | some pe =>
      left
      unfold enqueueNext at hp
      rw [if_pos h1, h2] at hp
      simp only [] at hp
      split at hp
      · obtain ⟨p', hp', rfl⟩ := List.mem_map.mp hp
        refine ⟨p', hp', ?_⟩
        split <;> rfl
      · split at hp
        · obtain ⟨p', hp', rfl⟩ := List.mem_map.mp hp
          refine ⟨p', hp', ?_⟩
          split <;> rfl
        · exact ⟨p, hp, rfl⟩
  · left
    unfold enqueueNext at hp
    rw [if_neg h1] at hp
    exact ⟨p, hp, rfl⟩

/-- after visiting a target it is a known task: pending, already a node, tracked, or queued -/
theorem enqueueNext_known (w : WfSpec) (splits : List String) (st : CompState) (n : String) :
    Queued (enqueueNext w splits st n).queue n ∨ IsNode st.g n ∨ (∃ p ∈ st.track, p.1 = n) := by
  unfold enqueueNext
  split
  · split
    · next p existing hfind =>
      have hmem := List.mem_of_find?_eq_some hfind
      have hkey : p = n := by
        have := List.find?_some hfind
        simpa using this
      split
      · exact Or.inl ⟨(n, splits), List.mem_append_right _ (List.mem_singleton.mpr rfl), rfl⟩
      · split
        · exact Or.inl ⟨(n, splits), List.mem_append_right _ (List.mem_singleton.mpr rfl), rfl⟩
        · exact Or.inr (Or.inr ⟨_, hmem, hkey⟩)
    · exact Or.inl ⟨(n, splits), List.mem_append_right _ (List.mem_singleton.mpr rfl), rfl⟩
  · next h =>
    simp only [Bool.or_eq_true, Bool.not_eq_true', not_or, Bool.not_eq_false] at h
    exact Or.inr (Or.inl h.1)

/-! ### one transition -/

structure EdgeStep (w : WfSpec) (t : String) (st : CompState) (nt : String × Option Expr × Nat)
    (r : CompState) : Prop where
  inv : CInv w r (· = t)
  node : IsNode r.g t
  mono : ∀ e ∈ st.g.edges, e ∈ r.g.edges
  has : nt.1 ≠ "retry" → ∃ e ∈ r.g.edges, e.src = t ∧ e.dst = nt.1 ∧ e.ref = nt.2.2 ∧ criteriaEq e.criteria nt.2.1 = true

theorem composeEdge_inv (w : WfSpec) (t : String) (splits : List String) (st : CompState)
    (nt : String × Option Expr × Nat)
    (h : CInv w st (· = t)) (ht : IsNode st.g t) :
    EdgeStep w t st nt (composeEdge w t splits st nt) := by
  unfold composeEdge
  split
  · next hr =>
    -- the retry command only updates a node attribute
    have hnode : ∀ (f : Node → Node), (∀ x, (f x).id = x.id) → ∀ m, IsNode (st.g.updateNode t f) m ↔ IsNode st.g m := by
      intro f hf m; unfold IsNode; rw [hasTask_updateNode _ _ _ _ hf]
    have hnode := hnode (fun nd => { nd with retry := some { when_ := some (nt.2.1.getD .completed), count := some (.lit (.int 3)), delay := none } }) (fun _ => rfl)
    refine ⟨⟨?_, ?_, ?_, ?_⟩, (hnode t).mpr ht, fun e he => he, ?_⟩
    · intro n hn
      exact h.nodes n ((hnode n).mp hn)
    · intro p hp
      rcases h.track p hp with h1 | h1 | h1
      · exact Or.inl h1
      · exact Or.inr (Or.inl ((hnode _).mpr h1))
      · exact Or.inr (Or.inr h1)
    · intro e he
      exact (hnode _).mpr (h.dsts e he)
    · intro x hx
      rcases h.roots x hx with h1 | h1 | h1
      · exact Or.inl h1
      · exact Or.inr (Or.inl ((hnode _).mpr h1))
      · exact Or.inr (Or.inr h1)
    · intro hne
      exact absurd (by simpa using hr) hne
  · -- an ordinary target
    have hg := enqueueNext_g w splits st nt.1
    have hq := enqueueNext_queue_mono w splits st nt.1
    have hknown := enqueueNext_known w splits st nt.1
    have htrack := enqueueNext_track w splits st nt.1
    generalize enqueueNext w splits st nt.1 = st1 at hg hq hknown htrack
    simp only []
    have hmono : ∀ e ∈ st.g.edges, e ∈ (addEdge st1.g t nt.1 nt.2.1 nt.2.2).edges := by
      intro e he; rw [hg]; exact addEdge_mono _ _ _ _ _ e he
    have hnmono : ∀ m, IsNode st.g m → IsNode (addEdge st1.g t nt.1 nt.2.1 nt.2.2) m := by
      intro m hm; rw [hg]; exact isNode_addEdge_mono _ _ _ _ _ _ hm
    -- status of the target after the step
    have hnext : nt.1 = t ∨ Expanded w (addEdge st1.g t nt.1 nt.2.1 nt.2.2) nt.1 ∨ Queued st1.queue nt.1 := by
      rcases hknown with hk | hk | ⟨p, hp, hpk⟩
      · exact Or.inr (Or.inr hk)
      · rcases h.nodes nt.1 hk with h1 | h1 | h1
        · exact Or.inl h1
        · exact Or.inr (Or.inl (h1.mono hmono))
        · exact Or.inr (Or.inr (h1.mono hq))
      · rcases h.track p hp with h1 | h1 | h1
        · exact Or.inl (hpk ▸ h1)
        · rw [hpk] at h1
          rcases h.nodes nt.1 h1 with h2 | h2 | h2
          · exact Or.inl h2
          · exact Or.inr (Or.inl (h2.mono hmono))
          · exact Or.inr (Or.inr (h2.mono hq))
        · rw [hpk] at h1
          exact Or.inr (Or.inr (h1.mono hq))
    refine ⟨⟨?_, ?_, ?_, ?_⟩, hnmono t ht, hmono, fun _ => ?_⟩
    · intro n hn
      rcases isNode_addEdge _ _ _ _ _ _ hn with h1 | h1 | h1
      · rw [hg] at h1
        rcases h.nodes n h1 with h2 | h2 | h2
        · exact Or.inl h2
        · exact Or.inr (Or.inl (h2.mono hmono))
        · exact Or.inr (Or.inr (h2.mono hq))
      · exact Or.inl h1
      · rw [h1]; exact hnext
    · intro p hp
      rcases htrack p hp with ⟨p', hp', hk⟩ | ⟨hk, hqd⟩
      · rcases h.track p' hp' with h1 | h1 | h1
        · exact Or.inl (hk ▸ h1)
        · exact Or.inr (Or.inl (hnmono _ (hk ▸ h1)))
        · exact Or.inr (Or.inr ((hk ▸ h1 : Queued st.queue p.1).mono hq))
      · exact Or.inr (Or.inr (hk ▸ hqd))
    · apply addEdge_dst_node
      rw [hg]; exact h.dsts
    · intro x hx
      rcases h.roots x hx with h1 | h1 | h1
      · exact Or.inl h1
      · exact Or.inr (Or.inl (hnmono _ h1))
      · exact Or.inr (Or.inr (h1.mono hq))
    · exact addEdge_has _ _ _ _ _

/-! ### one task -/

theorem stepNode_hasTask (w : WfSpec) (g : Graph) (t : String) (splits : List String) (m : String) :
    (stepNode w g t splits).1.hasTask m = (g.hasTask m || m == t) := by
  have key : ∀ g' : Graph, g'.hasTask m = (g.hasTask m || m == t) →
      ∀ f : Node → Node, (∀ x, (f x).id = x.id) → (g'.updateNode t f).hasTask m = (g.hasTask m || m == t) := by
    intro g' hg' f hf
    rw [hasTask_updateNode _ _ _ _ hf, hg']
  unfold stepNode
  simp only []
  repeat' (first
    | exact hasTask_addTask g t m
    | (apply key <;> first | (intro x; rfl) | skip)
    | split)

theorem composeStep_inv (w : WfSpec) (st : CompState) (t : String) (splits : List String)
    (rest : List (String × List String)) (hq : st.queue = (t, splits) :: rest)
    (h : CInv w st (fun _ => False)) :
    CInv w (composeStep w { st with queue := rest } t splits) (fun _ => False) := by
  unfold composeStep
  simp only []
  generalize hsp : (stepNode w st.g t splits).2 = splits'
  -- the state the fold starts from
  have hedges := stepNode_edges w st.g t splits
  have hnodes := stepNode_hasTask w st.g t splits
  generalize (stepNode w st.g t splits).1 = g1 at hedges hnodes
  have unq : ∀ m, Queued st.queue m → m = t ∨ Queued rest m := by
    intro m ⟨x, hx, hm⟩
    rw [hq] at hx
    rcases List.mem_cons.mp hx with hx | hx
    · left; rw [← hm, hx]
    · exact Or.inr ⟨x, hx, hm⟩
  have h0 : CInv w { st with queue := rest, g := g1 } (· = t) := by
    refine ⟨?_, ?_, ?_, ?_⟩
    · intro n hn
      have hn' : (st.g.hasTask n || n == t) = true := by rw [← hnodes]; exact hn
      simp only [Bool.or_eq_true, beq_iff_eq] at hn'
      rcases hn' with hn' | hn'
      · rcases h.nodes n hn' with h1 | h1 | h1
        · exact absurd h1 id
        · exact Or.inr (Or.inl (h1.mono (by intro e he; rw [hedges]; exact he)))
        · rcases unq n h1 with h2 | h2
          · exact Or.inl h2
          · exact Or.inr (Or.inr h2)
      · exact Or.inl hn'
    · intro p hp
      rcases h.track p hp with h1 | h1 | h1
      · exact absurd h1 id
      · refine Or.inr (Or.inl ?_)
        show g1.hasTask p.1 = true
        rw [hnodes]; simp [show st.g.hasTask p.1 = true from h1]
      · rcases unq _ h1 with h2 | h2
        · exact Or.inl h2
        · exact Or.inr (Or.inr h2)
    · intro e he
      rw [hedges] at he
      show g1.hasTask e.dst = true
      rw [hnodes]; simp [show st.g.hasTask e.dst = true from h.dsts e he]
    · intro x hx
      rcases h.roots x hx with h1 | h1 | h1
      · exact absurd h1 id
      · refine Or.inr (Or.inl ?_)
        show g1.hasTask x = true
        rw [hnodes]; simp [show st.g.hasTask x = true from h1]
      · rcases unq _ h1 with h2 | h2
        · exact Or.inl h2
        · exact Or.inr (Or.inr h2)
  have ht0 : IsNode g1 t := by
    show g1.hasTask t = true
    rw [hnodes]; simp
  -- the fold over the transitions of `t`
  have hfold := foldl_inv_prefix
    (fun (pre : List (String × Option Expr × Nat)) (s : CompState) =>
      CInv w s (· = t) ∧ IsNode s.g t ∧
      ∀ nt ∈ pre, nt.1 ≠ "retry" →
        ∃ e ∈ s.g.edges, e.src = t ∧ e.dst = nt.1 ∧ e.ref = nt.2.2 ∧ criteriaEq e.criteria nt.2.1 = true)
    (composeEdge w t splits') (w.nextTasks t) { st with queue := rest, g := g1 }
    ⟨h0, ht0, by intro nt hnt; cases hnt⟩
    (by
      intro pre acc x ⟨hinv, hnode, hpre⟩
      have hs := composeEdge_inv w t splits' acc x hinv hnode
      refine ⟨hs.inv, hs.node, ?_⟩
      intro nt hnt hr
      rcases List.mem_append.mp hnt with hnt | hnt
      · obtain ⟨e, he, h1⟩ := hpre nt hnt hr
        exact ⟨e, hs.mono e he, h1⟩
      · simp only [List.mem_singleton] at hnt
        subst hnt
        exact hs.has hr)
  obtain ⟨hinv, hnodeT, hall⟩ := hfold
  -- `t` is now expanded
  have hexp : Expanded w ((w.nextTasks t).foldl (composeEdge w t splits') { st with queue := rest, g := g1 }).g t :=
    fun nt hnt hr => hall nt hnt hr
  refine ⟨?_, ?_, hinv.dsts, ?_⟩
  · intro n hn
    rcases hinv.nodes n hn with h1 | h1 | h1
    · exact Or.inr (Or.inl (h1 ▸ hexp))
    · exact Or.inr (Or.inl h1)
    · exact Or.inr (Or.inr h1)
  · intro p hp
    rcases hinv.track p hp with h1 | h1 | h1
    · exact Or.inr (Or.inl (h1 ▸ hnodeT))
    · exact Or.inr (Or.inl h1)
    · exact Or.inr (Or.inr h1)
  · intro x hx
    rcases hinv.roots x hx with h1 | h1 | h1
    · exact Or.inr (Or.inl (h1 ▸ hnodeT))
    · exact Or.inr (Or.inl h1)
    · exact Or.inr (Or.inr h1)

theorem composeLoop_inv (w : WfSpec) (fuel : Nat) (st : CompState) (h : CInv w st (fun _ => False)) :
    CInv w (composeLoop w fuel st) (fun _ => False) := by
  induction fuel generalizing st with
  | zero => exact h
  | succ n ih =>
    unfold composeLoop
    split
    · exact h
    · next t splits rest hq => exact ih _ (composeStep_inv w st t splits rest hq h)

/-- reachability in the definition: from a start task along transitions (other than `retry`) -/
inductive Reach (w : WfSpec) : String → Prop
  | root {r} : r ∈ w.startTasks → Reach w r
  | step {n} {nt : String × Option Expr × Nat} : Reach w n → nt ∈ w.nextTasks n → nt.1 ≠ "retry" → Reach w nt.1

/-- **C14** (completeness, partial correctness): if the composer's worklist empties (it does for
    every definition the correspondence check has run; termination is not proved), then every
    task reachable from a start task is a node of the composed graph and every one of its
    transitions (other than a `retry` command) is an edge with that transition's position and
    condition. -/
theorem C14_complete (w : WfSpec)
    (hterm : (composeLoop w (composeFuel w) { queue := w.startTasks.map fun n => (n, []) }).queue = []) :
    ∀ n, Reach w n → IsNode (compose w) n ∧ Expanded w (compose w) n := by
  have hinit : CInv w { queue := w.startTasks.map fun n => (n, ([] : List String)) } (fun _ => False) := by
    refine ⟨?_, ?_, ?_, ?_⟩
    · intro n hn; simp [IsNode, Graph.hasTask] at hn
    · intro p hp; cases hp
    · intro e he; cases he
    · intro r hr
      exact Or.inr (Or.inr ⟨(r, []), List.mem_map.mpr ⟨r, hr, rfl⟩, rfl⟩)
  have hinv := composeLoop_inv w (composeFuel w) _ hinit
  have hnoq : ∀ m, ¬ Queued (composeLoop w (composeFuel w) { queue := w.startTasks.map fun n => (n, []) }).queue m := by
    intro m ⟨x, hx, _⟩
    rw [hterm] at hx
    cases hx
  intro n hn
  unfold compose
  induction hn with
  | root hr =>
    rcases hinv.roots _ hr with h1 | h1 | h1
    · exact absurd h1 id
    · refine ⟨h1, ?_⟩
      rcases hinv.nodes _ h1 with h2 | h2 | h2
      · exact absurd h2 id
      · exact h2
      · exact absurd h2 (hnoq _)
    · exact absurd h1 (hnoq _)
  | step _ hnt hr ih =>
    obtain ⟨e, he, _, hd, _, _⟩ := ih.2 _ hnt hr
    have hnode := hinv.dsts e he
    rw [hd] at hnode
    refine ⟨hnode, ?_⟩
    rcases hinv.nodes _ hnode with h2 | h2 | h2
    · exact absurd h2 id
    · exact h2
    · exact absurd h2 (hnoq _)

end Orq
