/-
C09 / C10: control requests change statuses and nothing else.
-/
import OrqModel.Proofs.RequestFrame
import OrqModel.Proofs.RerunFrame
import OrqModel.Proofs.NextKeep
import OrqModel.Model.Ops
import OrqModel.Properties.Status
import OrqModel.Properties.Next

namespace Orq

/-- **C09/C10**: a status request — pause, resume, cancel or any other, accepted or rejected —
    leaves the definition, graph, output, context snapshots, routes, staged entries, task-key map,
    rerun log and publication log exactly as they were, and changes no field of any task record
    other than its status -/
theorem C09_request_touches_only_statuses (req : Status) (c : Cond) : Frame c (requestStatus req c).2 :=
  (requestStatus_fr req).run c

/-- **C09**: any sequence of status requests (pause then resume, …) with no report in between -/
theorem C09_requests_touch_only_statuses (reqs : List Status) (c : Cond) :
    Frame c (reqs.foldl (fun c r => (requestStatus r c).2) c) := by
  induction reqs generalizing c with
  | nil => exact frPre.refl c
  | cons r rs ih => exact frPre.trans (C09_request_touches_only_statuses r c) (ih _)

/-- in particular the decisions, context lists and predecessors of every record survive -/
theorem C09_request_keeps_record_data (req : Status) (c : Cond) (i : Nat) (r : Rec)
    (h : c.st.sequence[i]? = some r) :
    ∃ r', (requestStatus req c).2.st.sequence[i]? = some r' ∧ r'.next = r.next ∧ r'.ctxsIn = r.ctxsIn ∧
      r'.ctxsOut = r.ctxsOut ∧ r'.prev = r.prev ∧ r'.id = r.id ∧ r'.route = r.route ∧ r'.term = r.term ∧
      r'.retry = r.retry := by
  have hf := (C09_request_touches_only_statuses req c).records
  have hmap := congrArg (·[i]?) hf
  simp only [List.getElem?_map, h, Option.map_some] at hmap
  cases hc : (requestStatus req c).2.st.sequence[i]? with
  | none => rw [hc] at hmap; cases hmap
  | some r' =>
    rw [hc] at hmap
    simp only [Option.map_some, Option.some.injEq] at hmap
    refine ⟨r', rfl, ?_⟩
    unfold Rec.noStatus at hmap
    cases r
    cases r'
    simp only [Rec.mk.injEq] at hmap
    obtain ⟨h1, h2, h3, h4, h5, h6, _, h8, h9⟩ := hmap
    exact ⟨h6, h3, h4, h5, h1, h2, h8, h9⟩

/-- **C10**, along every rerun-free history after a cancellation took hold: whatever is reported,
    requested, queried or rendered afterwards, the conductor offers nothing — except, once the
    workflow has turned `failed` (a runtime error while canceling), the clean-up tasks flagged
    run-on-fail -/
theorem C10_history_no_offer_after_cancel (E : Evaluator) (ops : List Op) (hops : ∀ op ∈ ops, op.isRerun = false)
    (c : Cond) (hc : c.st.status = .canceling ∨ c.st.status = .canceled) (offers : List Offer) (c' : Cond)
    (h : getNextTasks E (runOps E ops c) = (.ok offers, c')) :
    offers = [] ∨ ((runOps E ops c).st.status = .failed ∧
      ∀ o ∈ offers, ∃ sx ∈ (runOps E ops c).st.readyStaged, sx.id = o.id ∧ sx.route = o.route ∧ sx.runOnFail = true) := by
  have hfam := C10_cancel_family_closed E ops hops c (by rcases hc with hc | hc <;> rw [hc] <;> decide)
  have hcases : (runOps E ops c).st.status = .canceling ∨ (runOps E ops c).st.status = .canceled ∨
      (runOps E ops c).st.status = .failed := by
    revert hfam
    cases (runOps E ops c).st.status <;> decide
  rcases hcases with h1 | h1 | h1
  · left
    have := C10_no_offer_after_cancel E (runOps E ops c) (Or.inl h1)
    rw [this] at h
    simp only [Prod.mk.injEq, Except.ok.injEq] at h
    exact h.1.symm
  · left
    have := C10_no_offer_after_cancel E (runOps E ops c) (Or.inr h1)
    rw [this] at h
    simp only [Prod.mk.injEq, Except.ok.injEq] at h
    exact h.1.symm
  · right
    exact ⟨h1, C04_failed_offers_only_run_on_fail E (runOps E ops c) offers c' h1 h⟩

/-- **C04**, along every rerun-free history from a terminal workflow (failed, canceled or
    succeeded): whatever is reported, requested, queried or rendered afterwards, the conductor
    offers nothing — except, while the workflow is `failed`, the clean-up tasks flagged run-on-fail -/
theorem C04_history_no_offer_after_terminal (E : Evaluator) (ops : List Op) (hops : ∀ op ∈ ops, op.isRerun = false)
    (c : Cond) (hc : c.st.status = .failed ∨ c.st.status = .canceled ∨ c.st.status = .succeeded)
    (offers : List Offer) (c' : Cond) (h : getNextTasks E (runOps E ops c) = (.ok offers, c')) :
    offers = [] ∨ ((runOps E ops c).st.status = .failed ∧
      ∀ o ∈ offers, ∃ sx ∈ (runOps E ops c).st.readyStaged, sx.id = o.id ∧ sx.route = o.route ∧ sx.runOnFail = true) := by
  have hcases : (runOps E ops c).st.status = .failed ∨ (runOps E ops c).st.status = .canceled ∨
      (runOps E ops c).st.status = .succeeded := by
    rcases hc with hc | hc | hc
    · exact Or.inl (C04_failed_final E ops hops c hc)
    · exact Or.inr (Or.inl (C04_canceled_final E ops hops c hc))
    · rcases C04_succeeded_final E ops hops c hc with h1 | h1
      · exact Or.inr (Or.inr h1)
      · exact Or.inl h1
  rcases hcases with h1 | h1 | h1
  · right
    exact ⟨h1, C04_failed_offers_only_run_on_fail E (runOps E ops c) offers c' h1 h⟩
  · left
    have := C04_no_offer_when_succeeded_or_canceled E (runOps E ops c) (Or.inr h1)
    rw [this] at h
    simp only [Prod.mk.injEq, Except.ok.injEq] at h
    exact h.1.symm
  · left
    have := C04_no_offer_when_succeeded_or_canceled E (runOps E ops c) (Or.inl h1)
    rw [this] at h
    simp only [Prod.mk.injEq, Except.ok.injEq] at h
    exact h.1.symm

/-- **C17**: a rerun request — accepted or rejected, whatever it names — publishes nothing, routes
    nothing and records no decision: the context snapshots, the routes and the publication log are
    exactly what they were, and every existing record keeps its identity, route, context list,
    predecessors and decisions (what is re-executed gets *new* records) -/
theorem C17_rerun_keeps_history (E : Evaluator) (reqs : List RerunReq) (c : Cond) :
    (requestRerun E reqs c).2.st.contexts = c.st.contexts ∧ (requestRerun E reqs c).2.st.routes = c.st.routes ∧
    (requestRerun E reqs c).2.st.pubLog = c.st.pubLog ∧
    ∀ (i : Nat) (r : Rec), c.st.sequence[i]? = some r →
      ∃ r', (requestRerun E reqs c).2.st.sequence[i]? = some r' ∧ r'.core = r.core ∧ r'.next = r.next := by
  have hcr := (requestRerun_cr E reqs).run c
  have hlog := (requestRerun_log E reqs).run c
  have hext := (requestRerun_ext E reqs).run c
  have hnx := (requestRerun_nxa E reqs).run c
  refine ⟨hcr.1, hcr.2, hlog, ?_⟩
  intro i r hr
  obtain ⟨r', hr', hc⟩ := Ext.getElem_core hext hr
  obtain ⟨r'', hr'', hn⟩ := hnx.keep i r hr
  rw [hr'] at hr''
  cases hr''
  exact ⟨r', hr', hc, hn⟩

end Orq
