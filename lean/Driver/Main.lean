/-
Line-protocol driver of the model: one JSON object per input line, one canonical JSON line out.
Imports the model only (no proofs, no Mathlib), so it links as a `lean_exe`.
-/
import Lean.Data.Json
import OrqModel.Model.Conductor
import OrqModel.Model.Eval

open Lean (Json)
open Orq

/-! ### JSON → model -/

partial def valOfJson : Json → Val
  | .null => .null
  | .bool b => .bool b
  | .num n => .int n.mantissa   -- the harness never sends fractions
  | .str s => .str s
  | .arr xs => .list (xs.toList.map valOfJson)
  | .obj kvs => .dict (kvs.toList.map fun (k, v) => (k, valOfJson v))

/-- dict values arrive as lists of pairs `[[k, v], …]` so that insertion order survives -/
partial def valOfJsonO : Json → Val
  | .arr #[.str "__dict__", .arr kvs] =>
    .dict (kvs.toList.filterMap fun kv => match kv with
      | .arr #[.str k, v] => some (k, valOfJsonO v)
      | _ => none)
  | .arr xs => .list (xs.toList.map valOfJsonO)
  | .null => .null
  | .bool b => .bool b
  | .num n => .int n.mantissa
  | .str s => .str s
  | .obj kvs => .dict (kvs.toList.map fun (k, v) => (k, valOfJsonO v))

def dictOfJson (j : Json) : Val.Dict :=
  match valOfJsonO j with
  | .dict d => d
  | _ => []

partial def jsonOfVal : Val → Json
  | .null => .null
  | .bool b => .bool b
  | .int i => .num ⟨i, 0⟩
  | .str s => .str s
  | .list xs => .arr (xs.map jsonOfVal).toArray
  | .dict kvs => Json.mkObj (kvs.map fun (k, v) => (k, jsonOfVal v))

def jget (j : Json) (k : String) : Json := (j.getObjVal? k).toOption.getD .null
def jstr (j : Json) : String := (j.getStr?).toOption.getD ""
def jnat (j : Json) : Nat := (j.getNat?).toOption.getD 0
def jarr (j : Json) : List Json := match j with | .arr xs => xs.toList | _ => []
def jbool (j : Json) : Bool := (j.getBool?).toOption.getD false
def jopt {α} (f : Json → α) (j : Json) : Option α := match j with | .null => none | j => some (f j)

partial def exprOfJson (j : Json) : Expr :=
  match j with
  | .obj _ =>
    if let .ok v := j.getObjVal? "lit" then .lit (valOfJsonO v)
    else if let .ok v := j.getObjVal? "ctxkey" then .ctxKey (jstr v) (jstr (jget j "k"))
    else if let .ok v := j.getObjVal? "ctx" then .ctx (jstr v)
    else if let .ok v := j.getObjVal? "fn" then
      match jstr v with
      | "succeeded" => .succeeded
      | "failed" => .failed
      | "completed" => .completed
      | "result" => .result
      | _ => .item
    else if let .ok v := j.getObjVal? "item" then .itemKey (jstr v)
    else if let .ok v := j.getObjVal? "task_status" then .taskStatus (jstr v)
    else if let .ok v := j.getObjVal? "not" then .not (exprOfJson v)
    -- a failing expression rendered beside a Jinja raw block: it fails exactly when the inner one does
    else if let .ok v := j.getObjVal? "rawbad" then exprOfJson v
    -- two failing expressions in one string: fails as the first does
    else if let .ok v := j.getObjVal? "twobad" then (match jarr v with | a :: _ => exprOfJson a | [] => .lit .null)
    else
      let a := exprOfJson (jget j "a")
      let b := exprOfJson (jget j "b")
      match jstr (jget j "op") with
      | "eq" => .eq a b
      | "lt" => .lt a b
      | "and" => .and a b
      | "or" => .or a b
      | "div" => .div a b
      | _ => .add a b
  | _ => .lit .null

def pairsOfJson {α} (f : Json → α) (j : Json) : List (String × α) :=
  (jarr j).filterMap fun kv => match kv with
    | .arr #[.str k, v] => some (k, f v)
    | _ => none

def taskOfJson (j : Json) : TaskSpec :=
  { name := jstr (jget j "name"),
    action := jstr (jget j "action"),
    input := pairsOfJson exprOfJson (jget j "input"),
    join := (match jget j "join" with
      | .null => none
      | .str _ => some none
      | n => some (some (jnat n))),
    withItems := jopt (fun w =>
      { items := exprOfJson (jget w "items"), key := jopt jstr (jget w "key"),
        concurrency := jopt exprOfJson (jget w "concurrency") }) (jget j "with"),
    retry := jopt (fun r =>
      { when_ := jopt exprOfJson (jget r "when"), count := exprOfJson (jget r "count"),
        delay := jopt exprOfJson (jget r "delay") }) (jget j "retry"),
    delay := jopt exprOfJson (jget j "delay"),
    next := (jarr (jget j "next")).map fun t =>
      { when_ := jopt exprOfJson (jget t "when"),
        publish := pairsOfJson exprOfJson (jget t "publish"),
        do_ := (jarr (jget t "do")).map jstr } }

def specOfJson (j : Json) : WfSpec :=
  { input := pairsOfJson (jopt exprOfJson) (jget j "input"),
    vars := pairsOfJson exprOfJson (jget j "vars"),
    output := pairsOfJson exprOfJson (jget j "output"),
    tasks := (jarr (jget j "tasks")).map taskOfJson }

/-! ### model → canonical JSON -/

def tidStr (t : TransId) : String := s!"{t.1}__t{t.2}"
def keyStr (k : TaskKey) : String := s!"{k.1}__r{k.2}"
def jn (n : Nat) : Json := .num ⟨n, 0⟩

def rvJson : RV → Json
  | .none_ => .null
  | .val (.str _) => .str "<expr>"   -- canonical form of any string (the harness maps strings likewise)
  | .val v => jsonOfVal v
  | .expr _ => .str "<expr>"

def retryJson (r : RetryState) : Json :=
  Json.mkObj [("when", .bool r.when_.isSome), ("count", rvJson r.count), ("delay", rvJson r.delay),
              ("tally", jn r.tally)]

def recJson (r : Rec) : Json :=
  Json.mkObj ([("id", .str r.id), ("route", jn r.route),
    ("ctxs_in", .arr (r.ctxsIn.map jn).toArray),
    ("ctxs_out", match r.ctxsOut with | some (t, i) => Json.mkObj [(tidStr t, jn i)] | none => .null),
    ("prev", Json.mkObj (r.prev.map fun (t, i) => (tidStr t, jn i))),
    ("next", Json.mkObj (r.next.map fun (t, b) => (tidStr t, .bool b))),
    ("status", match r.status with | some s => .str s.toStr | none => .null),
    ("term", .bool r.term),
    ("retry", match r.retry with | some x => retryJson x | none => .null)])

def stagedJson (x : Staged) : Json :=
  Json.mkObj [("id", .str x.id), ("route", jn x.route),
    ("ctxs_in", .arr (x.ctxsIn.map jn).toArray),
    ("prev", Json.mkObj (x.prev.map fun (t, i) => (tidStr t, jn i))),
    ("ready", .bool x.ready),
    ("retry", match x.retry with | some r => retryJson r | none => .null),
    ("items", match x.items with | some l => .arr (l.map fun s => Json.str s.toStr).toArray | none => .null),
    ("completed", .bool x.completed), ("run_on_fail", .bool x.runOnFail)]

def errJson (e : ErrEntry) : Json :=
  .arr #[.str e.kind, (match e.taskId with | some t => .str t | none => .null),
         (match e.route with | some r => jn r | none => .null),
         (match e.trans with | some t => .str (tidStr t) | none => .null),
         (match e.result with | some v => jsonOfVal v | none => .null)]

def stateJson (c : Cond) : Json :=
  Json.mkObj [
    ("status", .str c.st.status.toStr),
    ("errors", .arr (c.errors.map errJson).toArray),
    ("output", match c.output with | some d => jsonOfVal (.dict d) | none => .null),
    ("contexts", .arr (c.st.contexts.map fun d => jsonOfVal (.dict d)).toArray),
    ("routes", .arr (c.st.routes.map fun r => Json.arr (r.map fun t => Json.str (tidStr t)).toArray).toArray),
    ("sequence", .arr (c.st.sequence.map recJson).toArray),
    ("staged", .arr (c.st.staged.map stagedJson).toArray),
    ("tasks", Json.mkObj (c.st.tasks.map fun (k, i) => (keyStr k, jn i))),
    ("reruns", .arr (c.st.reruns.map fun l => Json.arr (l.map jn).toArray).toArray)]

def offerJson (o : Offer) : Json :=
  Json.mkObj [("id", .str o.id), ("route", jn o.route),
    ("actions", .arr (o.actions.map fun a => Json.mkObj [("action", if a.action == "" then .null else .str a.action),
        ("input", jsonOfVal a.input),
        ("item_id", match a.itemId with | some i => jn i | none => .null)]).toArray),
    ("delay", match o.delay with | some (.str _) => .str "<expr>" | some v => jsonOfVal v | none => .null),
    ("items_count", match o.itemsCount with | some n => jn n | none => .null),
    ("concurrency", match o.concurrency with | some v => jsonOfVal v | none => .str "<absent>"),
    ("ctx", jsonOfVal (.dict o.ctx))]

def exprTag : Option Expr → Json
  | none => .null
  | some _ => .bool true

def graphJson (g : Graph) : Json :=
  Json.mkObj [
    ("nodes", .arr (g.nodes.map fun n => Json.mkObj [("id", .str n.id),
      ("barrier", match n.barrier with | none => .null | some none => .str "*" | some (some k) => jn k),
      ("splits", .arr (n.splits.map Json.str).toArray),
      ("retry", match n.retry with
        | none => .null
        | some r => Json.mkObj [("when", exprTag r.when_), ("count", exprTag r.count), ("delay", exprTag r.delay)])]).toArray),
    ("edges", .arr (g.edges.map fun e => Json.mkObj [("src", .str e.src), ("dst", .str e.dst),
      ("key", jn e.key), ("criteria", exprTag e.criteria), ("ref", jn e.ref)]).toArray),
    ("roots", .arr (g.roots.map Json.str).toArray)]

/-! ### the loop -/

def E : Evaluator := fragEvaluator

def raisedJson (e : Err) : Json := Json.mkObj [("raised", .str e.className)]

def reply (res : Json) (c : Cond) : String :=
  (Json.mkObj [("res", res), ("state", stateJson c)]).compress

def statusOf (j : Json) : Status := (Status.ofStr? (jstr j)).getD .unset

def step (c : Option Cond) (line : String) : Option Cond × String :=
  match Json.parse line with
  | .error e => (c, (Json.mkObj [("bad", .str e)]).compress)
  | .ok j =>
    let op := jstr (jget j "op")
    if op == "init" then
      let spec := specOfJson (jget j "def")
      let c := init E spec (dictOfJson (jget j "ctx")) (dictOfJson (jget j "inputs"))
      (some c, reply .null c)
    else if op == "compose" then
      let spec := specOfJson (jget j "def")
      (c, (Json.mkObj [("res", graphJson (compose spec))]).compress)
    else
      match c with
      | none => (c, (Json.mkObj [("bad", .str "no conductor")]).compress)
      | some c =>
        let run (m : M Json) : Option Cond × String :=
          match m c with
          | (.ok r, c') => (some c', reply r c')
          | (.error e, c') => (some c', reply (raisedJson e) c')
        if op == "req" then
          run (do requestStatus (statusOf (jget j "status")); pure .null)
        else if op == "next" then
          run (do let os ← getNextTasks E; pure (.arr (os.map offerJson).toArray))
        else if op == "report" then
          let k : TaskKey := (jstr (jget j "task"), jnat (jget j "route"))
          let st := statusOf (jget j "status")
          let res := valOfJsonO (jget j "result")
          let ev : Event := match jget j "item" with
            | .null => .action st res
            | i => .item (jnat i) st res (jopt valOfJsonO (jget j "acc"))
          run (do updateTaskState E k ev; pure .null)
        else if op == "render" then
          run (do renderOutput E; pure .null)
        else if op == "rerun" then
          let reqs := (jarr (jget j "reqs")).map fun r =>
            ({ taskId := jstr (jget r "task"), route := jnat (jget r "route"),
               resetItems := jbool (jget r "reset_items") } : RerunReq)
          run (do requestRerun E reqs; pure .null)
        else if op == "persist" then
          (some c, reply .null c)
        else (some c, (Json.mkObj [("bad", .str op)]).compress)

partial def loop (h : IO.FS.Stream) (out : IO.FS.Stream) (c : Option Cond) : IO Unit := do
  let line ← h.getLine
  if line.isEmpty then return ()
  let line := line.trimAscii.toString
  if line.isEmpty then loop h out c
  else
    let (c', s) := step c line
    out.putStrLn s
    loop h out c'

def main : IO Unit := do
  let stdin ← IO.getStdin
  let stdout ← IO.getStdout
  loop stdin stdout none
  stdout.flush
